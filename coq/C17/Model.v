(* C17/Model.v -- environment variables and custom functions.

   Mirrors: evalopts/evalopts.go EnvVariable, validateType, OverrideTime; internal/opts/opts.go ApplyOptions
   (every option applied, errors joined); internal/expr/context.go InitializeContext (context, ucum
   pre-seeded); internal/expr/expressions.go:757 ExternalConstantExpression.Evaluate; fhirpath.go Evaluate
   (no evaluation when an option failed); compopts.AddFunction -> funcs.FunctionTable.Register ->
   funcs.ToFunction / validateFunc; parser/visitor.go VisitFunction arity check; the call wrapper built by
   ToFunction. *)
From FPV Require Import Base.Prelude.

(* ---- values an option can carry -------------------------------------------------------------------- *)
Inductive vkind :=
| KVal (id : N)              (* a System value or FHIR element/resource, identified by the harness *)
| KBad                       (* anything else: a Go string, struct, nil ... *)
| KColl (l : list vkind).    (* a system.Collection *)

Fixpoint valid (v : vkind) : bool :=
  match v with
  | KVal _ => true
  | KBad => false
  | KColl l => (fix all (l : list vkind) : bool := match l with [] => true | x :: l' => valid x && all l' end) l
  end.
Fixpoint vkind_eqb (a b : vkind) : bool :=
  match a, b with
  | KVal x, KVal y => N.eqb x y
  | KBad, KBad => true
  | KColl l, KColl m =>
      (fix eq (l m : list vkind) : bool :=
         match l, m with [] , [] => true | x :: l', y :: m' => vkind_eqb x y && eq l' m' | _, _ => false end) l m
  | _, _ => false
  end.

Inductive eopt := EVar (name : N) (v : vkind) | EOverrideTime.
Inductive errkind := EExisting | EUnsupported.

(* names: 1 = context, 2 = ucum; user names are >= 10 *)
Definition env := list (N * vkind).
Fixpoint lookup (e : env) (n : N) : option vkind :=
  match e with [] => None | (m, v) :: e' => if N.eqb m n then Some v else lookup e' n end.
Definition init_env (input : vkind) : env := [(1%N, input); (2%N, KVal 2%N)].

(* one option: validateType first, then the existence test, then the store *)
Definition apply1 (st : env * list errkind) (o : eopt) : env * list errkind :=
  let '(e, errs) := st in
  match o with
  | EOverrideTime => (e, errs)
  | EVar n v =>
      if negb (valid v) then (e, errs ++ [EUnsupported])
      else match lookup e n with
           | Some _ => (e, errs ++ [EExisting])
           | None => (e ++ [(n, v)], errs)
           end
  end.
Definition apply_options (input : vkind) (os : list eopt) : env * list errkind :=
  fold_left apply1 os (init_env input, []).

(* what a constant evaluates to: a collection is spliced in -- collections nested inside it too, so that the result is
   a flat FHIRPath collection (fix 7e5d2e5; before it only one level was spliced and an item could itself be a
   collection) --, anything else is a singleton *)
Fixpoint splice (v : vkind) : list vkind :=
  match v with
  | KColl l => (fix go (l : list vkind) : list vkind := match l with [] => [] | x :: l' => splice x ++ go l' end) l
  | x => [x]
  end.
Definition is_item (v : vkind) : bool := match v with KColl _ => false | _ => true end.

Inductive eres :=
| RErr (existing unsupported : bool)      (* Evaluate returned the joined option errors; nothing was evaluated *)
| RNotFound                               (* evaluation error: unknown constant *)
| RVal (items : list vkind).

Definition has_err (k : errkind) (l : list errkind) : bool :=
  existsb (fun x => match x, k with EExisting, EExisting | EUnsupported, EUnsupported => true | _, _ => false end) l.

(* Evaluate of the program `%name` *)
Definition eval_var (input : vkind) (os : list eopt) (n : N) : eres :=
  let '(e, errs) := apply_options input os in
  match errs with
  | _ :: _ => RErr (has_err EExisting errs) (has_err EUnsupported errs)
  | [] => match lookup e n with Some v => RVal (splice v) | None => RNotFound end
  end.

Definition eres_eqb (a b : eres) : bool :=
  match a, b with
  | RErr x y, RErr x' y' => Bool.eqb x x' && Bool.eqb y y'
  | RNotFound, RNotFound => true
  | RVal l, RVal m => vkind_eqb (KColl l) (KColl m)
  | _, _ => false
  end.

(* ---- the specification, stated directly over the option list ----------------------------------------- *)
(* an option fails iff its value is unsupported, or its name is predefined or was supplied (validly) before *)
Fixpoint spec_errs (seen : list N) (os : list eopt) : list errkind :=
  match os with
  | [] => []
  | EOverrideTime :: os' => spec_errs seen os'
  | EVar n v :: os' =>
      if negb (valid v) then EUnsupported :: spec_errs seen os'
      else if existsb (N.eqb n) seen then EExisting :: spec_errs seen os'
      else spec_errs (n :: seen) os'
  end.
Fixpoint first_valid (n : N) (os : list eopt) : option vkind :=
  match os with
  | [] => None
  | EVar m v :: os' => if N.eqb m n && valid v then Some v else first_valid n os'
  | _ :: os' => first_valid n os'
  end.
Definition spec_var (input : vkind) (os : list eopt) (n : N) : eres :=
  match spec_errs [1%N; 2%N] os with
  | (_ :: _) as errs => RErr (has_err EExisting errs) (has_err EUnsupported errs)
  | [] => if N.eqb n 1 then RVal (splice input) else if N.eqb n 2 then RVal [KVal 2%N]
          else match first_valid n os with Some v => RVal (splice v) | None => RNotFound end
  end.

(* ---- custom functions ------------------------------------------------------------------------------------ *)
(* a Go value offered to AddFunction *)
Inductive ptype := PAny | PInteger | PString | PCollection.
Record fsig := { is_func : bool; has_params : bool; first_is_collection : bool; results_ok : bool;
                 params : list ptype (* after the first *) }.
Definition sig_valid (s : fsig) : bool := is_func s && has_params s && first_is_collection s && results_ok s.

Inductive copt := CAddFunction (name : N) (s : fsig) | COther.
(* function names: ids < 1000 are built-in *)
Definition is_builtin (n : N) : bool := (n <? 1000)%N.
Fixpoint compile_opts (registered : list (N * fsig)) (os : list copt) : list (N * fsig) * bool (* any error *) :=
  match os with
  | [] => (registered, false)
  | COther :: os' => compile_opts registered os'
  | CAddFunction n s :: os' =>
      if is_builtin n || existsb (fun p => N.eqb (fst p) n) registered || negb (sig_valid s)
      then let '(r, _) := compile_opts registered os' in (r, true)
      else compile_opts (registered ++ [(n, s)]) os'
  end.

(* item kinds passed as arguments *)
Inductive akind := AInteger | AString | AOtherVal | AEmpty | AMulti.
Definition assignable (a : akind) (p : ptype) : bool :=
  match p, a with
  | PAny, (AInteger | AString | AOtherVal) => true
  | PInteger, AInteger => true
  | PString, AString => true
  | _, _ => false
  end.

Inductive cres :=
| CCompileErr            (* Compile returned an error *)
| CEvalErr               (* the wrapper rejected the call (argument not a singleton / not assignable) *)
| CCalled.               (* the user function was invoked with the input collection and the argument items;
                            its result (collection or error) is what Evaluate returns *)

(* Compile(`f(a1..ak)`, opts) then Evaluate *)
Definition call_custom (os : list copt) (f : N) (args : list akind) : cres :=
  let '(reg, err) := compile_opts [] os in
  if err then CCompileErr else
  match find (fun p => N.eqb (fst p) f) reg with
  | None => CCompileErr                                   (* unresolved function *)
  | Some (_, s) =>
      if negb (Nat.eqb (length args) (length (params s))) then CCompileErr      (* arity = parameters - 1 *)
      else if forallb (fun ap => assignable (fst ap) (snd ap)) (combine args (params s)) then CCalled else CEvalErr
  end.

Definition cres_eqb (a b : cres) : bool :=
  match a, b with CCompileErr, CCompileErr | CEvalErr, CEvalErr | CCalled, CCalled => true | _, _ => false end.

(* ---- cases ---------------------------------------------------------------------------------------------------- *)
Inductive case :=
| CVar (input : vkind) (os : list eopt) (n : N)
| CFn (os : list copt) (f : N) (args : list akind).
Inductive obs :=
| OVar (r : eres) (evaluated_anything : bool)     (* a probe function tells whether evaluation started *)
| OFn (r : cres) (received_ok : bool).            (* the probe received exactly the input and the arguments, and its result came back unchanged *)

Definition agrees (c : case) (o : obs) : bool :=
  match c, o with
  | CVar i os n, OVar r ev => eres_eqb (eval_var i os n) r
  | CFn os f args, OFn r ok => cres_eqb (call_custom os f args) r
  | _, _ => false
  end.
Definition holds (c : case) (o : obs) : bool :=
  match c, o with
  | CVar i os n, OVar r ev =>
      eres_eqb (spec_var i os n) r && (match r with RErr _ _ => negb ev | _ => true end)
  | CFn os f args, OFn r ok => cres_eqb (call_custom os f args) r && (match r with CCalled => ok | _ => true end)
  | _, _ => false
  end.
Definition kf (c : case) : N := 0%N.
Definition judge (x : N * case * obs) : verdict :=
  let '(id, c, o) := x in
  {| v_id := id; v_agree := agrees c o; v_holds := holds c o; v_kf := kf c |}.
