From FPV Require Import Base.Prelude C19.Model C19.Proofs C02.Model C02.Proofs.
From FPV Require C01.Proofs.

Lemma list_N_eqb_refl l : list_eqb N.eqb l l = true.
Proof. induction l as [|x l IH]; [reflexivity|]. cbn. rewrite N.eqb_refl, IH. reflexivity. Qed.
Lemma outcome_eqb_refl o : outcome_eqb o o = true.
Proof. destruct o; cbn; try reflexivity. apply list_N_eqb_refl. Qed.

(* what the model computes for a query passes the property predicate (given that the primitive values matched) *)
Theorem model_query_holds sc t p : query_holds sc t (p, model_outcome sc t p, true) = true.
Proof.
  unfold query_holds. cbn [andb].
  assert (Hnp : outcome_eqb (model_outcome sc t p) OPanic = false).
  { unfold model_outcome. pose proof (C01.Proofs.navigate_total sc p true [t]) as H.
    destruct (navigate sc true p [t]); [reflexivity|reflexivity|contradiction]. }
  assert (Hne : outcome_eqb (model_outcome sc t p) OOtherErr = false).
  { unfold model_outcome. destruct (navigate sc true p [t]); reflexivity. }
  rewrite Hnp, Hne. cbn [negb andb].
  destruct (spec_outcome sc t p) as [s|] eqn:E.
  - rewrite (model_meets_spec sc t p s E). apply outcome_eqb_refl.
  - apply outcome_eqb_refl.
Qed.
