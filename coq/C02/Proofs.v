(* C02/Proofs.v *)
From FPV Require Import Base.Prelude C19.Model C19.Proofs C02.Model.
From Coq Require Import String.
Local Open Scope string_scope.

Lemma filter_flat_map {A B} (p : B -> bool) (f : A -> list B) l :
  filter p (flat_map f l) = flat_map (fun x => filter p (f x)) l.
Proof. induction l as [|x l IH]; [reflexivity|]. cbn. rewrite filter_app, IH. reflexivity. Qed.
Lemma map_flat_map {A B C} (g : B -> C) (f : A -> list B) l :
  map g (flat_map f l) = flat_map (fun x => map g (f x)) l.
Proof. induction l as [|x l IH]; [reflexivity|]. cbn. rewrite map_app, IH. reflexivity. Qed.
Lemma flat_map_flat_map {A B C} (g : B -> list C) (f : A -> list B) l :
  flat_map g (flat_map f l) = flat_map (fun x => flat_map g (f x)) l.
Proof. induction l as [|x l IH]; [reflexivity|]. cbn. rewrite flat_map_app, IH. reflexivity. Qed.
Lemma flat_map_singleton {A} (l : list A) : flat_map (fun x => [x]) l = l.
Proof. induction l as [|x l IH]; [reflexivity|]. cbn. rewrite IH. reflexivity. Qed.
Lemma flat_map_ext' {A B} (f g : A -> list B) l : (forall x, f x = g x) -> flat_map f l = flat_map g l.
Proof. intro H. induction l as [|x l IH]; [reflexivity|]. cbn. rewrite H, IH. reflexivity. Qed.
Lemma flat_map_filter_map {A B} (p : A -> bool) (f : A -> B) (g : B -> list B) l :
  flat_map g (map f (filter p l)) = flat_map (fun x => if p x then g (f x) else []) l.
Proof. induction l as [|x l IH]; [reflexivity|]. cbn. destruct (p x); cbn; rewrite IH; reflexivity. Qed.

(* no element has the empty path *)
Lemma elements_at_nil t : elements_at [] t = [].
Proof.
  unfold elements_at. destruct t as [u ty rt kids]. cbn [all_paths].
  induction kids as [|nk kids IH]; [reflexivity|].
  cbn [flat_map]. rewrite filter_app, map_app, IH, app_nil_r. cbn [filter fst names_eqb list_eqb].
  induction (all_paths (snd nk)) as [|x l IHl]; [reflexivity|]. cbn. exact IHl.
Qed.

(* the elements at n.rest below t are the elements at rest below the children of t named n (the children
   themselves when rest is empty), child by child in order *)
Lemma elements_at_cons n rest t :
  elements_at (n :: rest) t =
  flat_map (fun k => match rest with [] => [k] | _ :: _ => elements_at rest k end) (children_named n t).
Proof.
  unfold elements_at at 1, children_named. destruct t as [u ty rt kids]. cbn [all_paths kids_of].
  rewrite filter_flat_map, map_flat_map, flat_map_filter_map.
  apply flat_map_ext'. intros [m k]. cbn [fst snd filter names_eqb list_eqb].
  destruct (beqb m n) eqn:E; cbn [andb].
  - assert (Hrest : map snd (filter (fun x => names_eqb (fst x) (n :: rest)) (map (fun x => (m :: fst x, snd x)) (all_paths k)))
                    = elements_at rest k).
    { unfold elements_at. induction (all_paths k) as [|x l IHl]; [reflexivity|].
      cbn [map filter fst snd names_eqb list_eqb]. rewrite E. cbn [andb]. fold (names_eqb (fst x) rest).
      destruct (names_eqb (fst x) rest); cbn [map]; rewrite IHl; reflexivity. }
    destruct rest as [|r0 rest'].
    + cbn [list_eqb map]. rewrite Hrest, elements_at_nil. reflexivity.
    + cbn [list_eqb]. exact Hrest.
  - induction (all_paths k) as [|x l IHl]; [reflexivity|].
    cbn [map filter fst names_eqb list_eqb]. rewrite E. cbn [andb]. exact IHl.
Qed.

(* a path of names: the evaluator's iterated flattening is the document-order enumeration *)
Lemma navigate_names sc : forall names items, names <> [] ->
  navigate sc false (map SName names) items =
  if valid_along sc names items then Ok (flat_map (elements_at names) items) else Err.
Proof.
  induction names as [|n rest IH]; intros items Hne; [contradiction|].
  cbn [map navigate andb valid_along]. unfold field_step.
  destruct (forallb (fun t => valid_name sc t n) items) eqn:Ev; cbn [andb]; [|reflexivity].
  destruct rest as [|n2 rest'].
  - cbn [map navigate valid_along]. f_equal.
    rewrite (flat_map_ext' (elements_at [n]) (children_named n)); [reflexivity|].
    intro t. rewrite elements_at_cons. apply flat_map_singleton.
  - rewrite IH by discriminate.
    destruct (valid_along sc (n2 :: rest') (flat_map (children_named n) items)); [|reflexivity].
    f_equal. rewrite flat_map_flat_map. apply flat_map_ext'. intro t. rewrite elements_at_cons. reflexivity.
Qed.

Lemma names_of_map p names : names_of p = Some names -> p = map SName names.
Proof.
  revert names. induction p as [|s p IH]; intros names H.
  - inversion H. reflexivity.
  - destruct s as [n|k]; [|discriminate]. cbn [names_of] in H.
    destruct (names_of p) as [ns|]; [|discriminate]. inversion H; subst. cbn [map]. rewrite (IH ns eq_refl). reflexivity.
Qed.

Lemma navigate_empty sc : forall p, navigate sc false p [] = Ok [].
Proof.
  induction p as [|s p IH]; [reflexivity|]. destruct s as [n|k]; cbn [navigate andb field_step forallb flat_map].
  - exact IH.
  - unfold index_step. cbn [List.length N.of_nat]. destruct (k <? 0)%N eqn:E; [apply N.ltb_lt in E; lia|exact IH].
Qed.

(* the model meets the specification on every root-typed path of names: exactly the elements of the tree at
   that path, in document order; the root alone; empty for another root type; ErrInvalidField when a name is
   not an element of an item's type *)
Theorem model_meets_spec sc t p s : spec_outcome sc t p = Some s -> model_outcome sc t p = s.
Proof.
  unfold spec_outcome, model_outcome. destruct p as [|[root|k] rest]; try discriminate.
  destruct (names_of rest) as [names|] eqn:En; [|discriminate].
  destruct (is_type root) eqn:Et; [|discriminate].
  apply names_of_map in En. subst rest. cbn [navigate andb]. rewrite Et. unfold type_step. cbn [filter].
  rewrite (beqb_sym (rtype_of t) root).
  destruct (beqb root (rtype_of t)) eqn:Er.
  - destruct names as [|n names'].
    + intro H; inversion H. reflexivity.
    + rewrite navigate_names by discriminate. unfold all_valid_along.
      destruct (valid_along sc (n :: names') [t]); intro H; inversion H; subst; [|reflexivity].
      cbn [flat_map]. rewrite app_nil_r. reflexivity.
  - intro H; inversion H; subst. rewrite navigate_empty. reflexivity.
Qed.

(* an index selects one item of the flattened collection, or nothing *)
Lemma index_step_spec k items : index_step k items = match nth_error items (N.to_nat k) with Some x => [x] | None => [] end.
Proof.
  unfold index_step. destruct (k <? N.of_nat (List.length items))%N eqn:E; [reflexivity|].
  apply N.ltb_ge in E. assert (H : (List.length items <= N.to_nat k)%nat) by lia.
  apply nth_error_None in H. rewrite H. reflexivity.
Qed.

(* non-vacuity *)
Definition leaf (u : N) : tree := Node u 2 [] [].
Definition example_patient : tree :=
  Node 1 1 (bs "Patient")
    [(bs "name", Node 2 3 [] [(bs "family", leaf 3); (bs "given", leaf 4); (bs "given", leaf 5)]);
     (bs "name", Node 6 3 [] [(bs "given", leaf 7)]);
     (bs "deceased", leaf 8)].
Definition example_schema : schema := [(1%N, [bs "name"; bs "deceased"; bs "id"]); (3%N, [bs "family"; bs "given"]); (2%N, [bs "value"])].
Example example_given : model_outcome example_schema example_patient [SName (bs "Patient"); SName (bs "name"); SName (bs "given")] = OOk [4; 5; 7]%N
  /\ spec_outcome example_schema example_patient [SName (bs "Patient"); SName (bs "name"); SName (bs "given")] = Some (OOk [4; 5; 7]%N)
  /\ model_outcome example_schema example_patient [SName (bs "Patient"); SName (bs "name"); SIndex 1; SName (bs "given"); SIndex 0] = OOk [7%N]
  /\ model_outcome example_schema example_patient [SName (bs "Observation"); SName (bs "name")] = OOk []
  /\ model_outcome example_schema example_patient [SName (bs "Patient"); SName (bs "nom")] = OInvalidField.
Proof. repeat split; vm_compute; reflexivity. Qed.
