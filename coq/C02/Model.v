(* C02/Model.v -- path navigation over the logical element tree of a resource.

   The tree is the FHIR view of a populated resource: one node per element, edges labelled with the element
   name (the base name for a choice element, whose wrapper message is not a node; a contained resource or a
   bundle entry's resource is the node below `contained` / `resource`), children in document order.  The
   harness reads it off the proto with google/fhir's descriptors only.  Whether the evaluator really skips
   the wrappers is settled by the correspondence (a wrapper has its own uid and is never expected). *)
From FPV Require Import Base.Prelude C19.Model.
From Coq Require Import String.

Inductive tree := Node (uid ty : N) (rtype : bytes) (kids : list (bytes * tree)).
Definition uid_of (t : tree) : N := match t with Node u _ _ _ => u end.
Definition ty_of (t : tree) : N := match t with Node _ y _ _ => y end.
Definition rtype_of (t : tree) : bytes := match t with Node _ _ r _ => r end.
Definition kids_of (t : tree) : list (bytes * tree) := match t with Node _ _ _ k => k end.

(* element names of each message type that occurs (from the descriptors) *)
Definition schema := list (N * list bytes).
Definition valid_name (sc : schema) (t : tree) (n : bytes) : bool :=
  match find (fun p => (fst p =? ty_of t)%N) sc with
  | Some p => existsb (beqb n) (snd p)
  | None => false
  end.

Inductive step := SName (n : bytes) | SIndex (k : N).

(* FieldExpression: every item must have the element; the children of that name, flattened, in order *)
Definition children_named (n : bytes) (t : tree) : list tree :=
  map snd (filter (fun nk => beqb (fst nk) n) (kids_of t)).
Definition field_step (sc : schema) (n : bytes) (items : list tree) : res (list tree) :=
  if forallb (fun t => valid_name sc t n) items then Ok (flat_map (children_named n) items) else Err.
(* IndexExpression *)
Definition index_step (k : N) (items : list tree) : list tree :=
  if (k <? N.of_nat (List.length items))%N then (match nth_error items (N.to_nat k) with Some x => [x] | None => [] end) else [].
(* TypeExpression *)
Definition type_step (n : bytes) (items : list tree) : list tree := filter (fun t => beqb (rtype_of t) n) items.

Fixpoint navigate (sc : schema) (first : bool) (p : list step) (items : list tree) : res (list tree) :=
  match p with
  | [] => Ok items
  | SName n :: p' =>
      if first && is_type n then navigate sc false p' (type_step n items)
      else match field_step sc n items with
           | Ok its => navigate sc false p' its
           | Err => Err
           | Panic => Panic
           end
  | SIndex k :: p' => navigate sc false p' (index_step k items)
  end.

(* ---- the specification: the elements at a name path, in document order ------------------------------ *)
Fixpoint all_paths (t : tree) : list (list bytes * tree) :=
  match t with
  | Node _ _ _ kids =>
      flat_map (fun nk => ([fst nk], snd nk) :: map (fun x => (fst nk :: fst x, snd x)) (all_paths (snd nk))) kids
  end.
Definition names_eqb (a b : list bytes) : bool := list_eqb beqb a b.
Definition elements_at (names : list bytes) (t : tree) : list tree :=
  map snd (filter (fun x => names_eqb (fst x) names) (all_paths t)).

Fixpoint names_of (p : list step) : option (list bytes) :=
  match p with
  | [] => Some []
  | SName n :: r => option_map (cons n) (names_of r)
  | SIndex _ :: _ => None
  end.

(* ---- correspondence cases ---------------------------------------------------------------------------------- *)
Inductive outcome := OOk (uids : list N) | OInvalidField | OOtherErr | OPanic.
Definition outcome_eqb (a b : outcome) : bool :=
  match a, b with
  | OOk x, OOk y => list_eqb N.eqb x y
  | OInvalidField, OInvalidField => true
  | OOtherErr, OOtherErr => true
  | OPanic, OPanic => true
  | _, _ => false
  end.
Definition query := (list step * outcome * bool)%type.      (* path, what Evaluate returned, values equal the JSON values *)
Definition case := (schema * tree * list query)%type.
Definition obs := unit.

Definition model_outcome (sc : schema) (t : tree) (p : list step) : outcome :=
  match navigate sc true p [t] with
  | Ok its => OOk (map uid_of its)
  | Err => OInvalidField
  | Panic => OPanic
  end.

(* the expected outcome, stated without the evaluator: for a path of names, with the root type in front *)
Fixpoint valid_along (sc : schema) (ns : list bytes) (items : list tree) : bool :=
  match ns with
  | [] => true
  | n :: r => forallb (fun x => valid_name sc x n) items && valid_along sc r (flat_map (children_named n) items)
  end.
Definition all_valid_along (sc : schema) (names : list bytes) (t : tree) : bool := valid_along sc names [t].
Definition spec_outcome (sc : schema) (t : tree) (p : list step) : option outcome :=
  match p with
  | SName root :: rest =>
      match names_of rest with
      | Some names =>
          if is_type root then
            if beqb root (rtype_of t) then
              (match names with
               | [] => Some (OOk [uid_of t])
               | _ :: _ => if all_valid_along sc names t then Some (OOk (map uid_of (elements_at names t))) else Some OInvalidField
               end)
            else Some (OOk [])
          else None
      | None => None
      end
  | _ => None
  end.

Definition query_agrees (sc : schema) (t : tree) (q : query) : bool :=
  let '(p, o, _) := q in outcome_eqb (model_outcome sc t p) o.
Definition query_holds (sc : schema) (t : tree) (q : query) : bool :=
  let '(p, o, values_ok) := q in
  values_ok && negb (outcome_eqb o OPanic) && negb (outcome_eqb o OOtherErr)
  && match spec_outcome sc t p with
     | Some s => outcome_eqb s o
     | None => outcome_eqb (model_outcome sc t p) o
     end.
Definition agrees_case (c : case) : bool := let '(sc, t, qs) := c in forallb (query_agrees sc t) qs.
Definition holds_case (c : case) : bool := let '(sc, t, qs) := c in forallb (query_holds sc t) qs.

(* the compact form the harness writes: element names interned in a table (entry 0 is the empty name) *)
Inductive ctree := CNode (uid ty rtype : N) (kids : list (N * ctree)).
Inductive cstep := CName (n : N) | CIndex (k : N).
Definition ccase := (list bytes * list (N * list N) * ctree * list (list cstep * outcome * bool))%type.
Definition nm (tbl : list bytes) (i : N) : bytes := nth (N.to_nat i) tbl [].
Fixpoint decode_tree (tbl : list bytes) (c : ctree) : tree :=
  match c with
  | CNode u ty r kids => Node u ty (nm tbl r) (map (fun nk => (nm tbl (fst nk), decode_tree tbl (snd nk))) kids)
  end.
Definition decode_step (tbl : list bytes) (s : cstep) : step := match s with CName n => SName (nm tbl n) | CIndex k => SIndex k end.
Definition decode (c : ccase) : case :=
  let '(tbl, sc, t, qs) := c in
  (map (fun p => (fst p, map (nm tbl) (snd p))) sc, decode_tree tbl t,
   map (fun q => let '(p, o, v) := q in (map (decode_step tbl) p, o, v)) qs).

Definition agrees (c : ccase) (o : obs) : bool := agrees_case (decode c).
Definition holds (c : ccase) (o : obs) : bool := holds_case (decode c).
Definition kf (c : ccase) : N := 0%N.
(* which queries disagree / fail, for the replay *)
Definition failing_queries (c : ccase) : list N :=
  let '(sc, t, qs) := decode c in
  map fst (filter (fun iq => negb (query_agrees sc t (snd iq) && query_holds sc t (snd iq))) (combine (map N.of_nat (seq 0 (List.length qs))) qs)).
Definition judge (x : N * ccase * obs) : verdict :=
  let '(id, c, o) := x in
  {| v_id := id; v_agree := agrees c o; v_holds := holds c o; v_kf := kf c |}.
