"""Per-property configuration of the check driver."""

TRUSTED_BASE = [
    "Coq 8.16.1 kernel (coqc; vm_compute used for finite-domain theorems and for evaluating the model on cases; no native_compute)",
    "no axioms: Print Assumptions of every property theorem is recorded under coverage.print_assumptions",
    "go2v (/verif/go2v, Go stdlib go/parser): translation of the listed fragments into Gallina within their shape contracts",
    "the Go harness /verif/harness and the verif-tagged hook package fhirpath/verifhook (case generation, outcome encoding into Coq terms)",
    "/verif/check driver (lib/runner.py): parsing of coqc output, verdict and evidence writing",
    "Go 1.23.5 toolchain; google/fhir v0.7.4 protos and jsonformat; shopspring/decimal v1.4.0 (modelled, not verified)",
]

NOT_APPLICABLE = {}

PROPS = {
    "C06": {
        "level_text": "Proof: Props/C06.v proves, for operand collections of any length and content, that the model of and/or/xor/implies/not(), of the where/exists/all/iif criteria and of EvaluateAsBool equals the Kleene truth tables (plus commutativity, De Morgan, implies = not-or), closed under the global context. The four table functions of booleans.go are re-translated from source by go2v on every run and re-proved equal to the model (Oblig/C06_gen.v); the remaining glue (ToSingletonBoolean, ToBool, operator dispatch, criteria) is tied by an exhaustive correspondence run over every operator x ordered pair of operand forms through Compile/Evaluate.",
        "level_note": "Trusted: Coq kernel, go2v, harness + hook package, check driver. Modelled rather than verified: Collection.ToSingletonBoolean/ToBool and the dispatch in BooleanExpression.Evaluate/Not/Where/All/Exists/Iif (hand-written model, exhaustive correspondence over the operand forms of the quantifier).",
        "fragments": ["booleans"],
        "oblig": ["C06_gen.v"],
        "explanation": "Theorems: the model of BooleanExpression/Not/where/exists/all/iif/EvaluateAsBool equals the Kleene specification for operand collections of any length and content (Props/C06.v). Tie A: booleans.go re-translated and proved equal to the model's tables. Tie B: exhaustive operator x operand-form programs through Compile/Evaluate.",
        "assumptions": ["items are abstracted to Boolean-with-value / other, which is all the anchored code inspects",
                        "operand collections are observed by evaluating the operand expression on its own"],
    },
    "C08": {
        "fragments": ["intarith"],
        "oblig": ["C08_gen.v"],
        "level_text": "Proof, partial for Decimal operands. Proved for ALL int32 operand pairs (no bound, no sweep): the overflow tests of Integer.Add/Sub/Mul regenerated from primitives.go by go2v are exact (Oblig/C08_gen.v, lia/nia), Integer div/mod are truncated division panicking exactly on a zero divisor (which the model's guards exclude), and the model satisfies the property predicate on all Integer operations (Props/C08.v); division by zero of any operand type is empty; MinInt32 div -1, -(MinInt32), abs(MinInt32) are empty; the half-away rounding used by `/` and round() is within half a unit. For Decimal and mixed operands the model (shopspring/decimal as exact scaled integers) is tied to the code by the correspondence run and the property predicate (exactness of + - *, 16-place accuracy of /, truncation of div, the div/mod identity, exact ceiling/floor/truncate/round) is evaluated by the Coq kernel on every case; the unbounded theorem `holds (model c)` for Decimal operands is not yet proved and is listed as not discharged in DESIGN.md.",
        "level_note": "Trusted: Coq kernel, go2v, harness + hook, check driver. Modelled, not verified: shopspring/decimal v1.4.0 (Add/Sub/Mul exact, Div = DivRound 16 half-away, QuoRem 0, Round, Ceil, Floor, Truncate), system.Normalize promotion, the zero-divisor / MinInt32 guards of arithmetic.go, ErrIntOverflow/ErrDivideByZero -> empty mapping, math.go abs/ceiling/floor/truncate/round.",
        "explanation": "Tie A: Integer.Add/Sub/Mul/FloorDiv/Mod regenerated from source and re-proved. Tie B: operator and function programs over boundary and random Integer/Decimal operands from every source, outcomes compared with the model and judged by the property predicate (exact Z arithmetic) inside Coq.",
        "assumptions": ["decimal results are compared by numeric value (trailing zeros are not observable)",
                        "`/` is accepted within 1e-16 of the exact quotient, as the property states; the model records the library's half-away rounding"],
    },
    "C16": {
        "fragments": ["functable"],
        "oblig": ["C16_gen.v"],
        "level_text": "Proof. General theorems (any table): VisitFunction accepts exactly when the name is in the table and the count within its bounds; unknown names are rejected; merging experimental functions never changes a base name (Props/C16.v). Finite theorems over the tables regenerated from table.go by go2v on every run (Oblig/C16_gen.v, vm_compute over the whole table): names unique, bounds well-formed, every implemented entry bound to the implementation of its own name, every N1 function the table implements carries exactly the specification's argument counts, placeholders are explicit. The remaining claim (an accepted call never fails with an arity complaint; placeholders fail with an error) quantifies over a finite space and is enumerated completely through Compile/Evaluate.",
        "level_note": "Trusted: Coq kernel, go2v's reading of the table literals, harness + hook, check driver, the hand-typed N1 function list in coq/C16/Model.v. Modelled rather than verified: VisitFunction's lookup/bounds test (hand-written model, exhaustive correspondence).",
        "explanation": "Tie A: baseTable/experimentalTable regenerated and the finite obligations re-proved. Tie B: every (name, argument count, option) compiled and, when accepted, evaluated; compile verdict compared with the model over the regenerated table.",
        "assumptions": ["the N1 list and its argument counts are typed in by hand from the specification"],
    },
    "C07": {
        "fragments": ["functable"],
        "oblig": ["C07_gen.v"],
        "level_text": "Proof over a classification model, decided by complete enumeration. The quantifier of C07 is a finite program space (every operator x position, every table name x accepted arity x argument position, three empty sources); the check enumerates it completely through Compile/Evaluate on every run. Coq proves, for ANY function table whose names are all classified (an obligation re-proved by vm_compute over the table regenerated from table.go on every run, so a new entry without classification breaks it), that every outcome the model allows satisfies the property (implemented non-aggregates give empty on empty input, placeholders give an error, an empty single-valued argument gives empty or an error, nothing panics), and that every operator except & gives empty.",
        "level_note": "Trusted: Coq kernel, go2v's reading of the table, harness + hook, check driver, the hand-written classification of function names (aggregate / propagating / placeholder; criterion / collection / single-valued argument) in coq/C07/Model.v. The per-function Go bodies are not modelled statement by statement: their empty-input behaviour is tied by the exhaustive run.",
        "explanation": "Tie A: function tables regenerated, classification completeness re-proved. Tie B: exhaustive single-operator / single-call programs.",
        "assumptions": ["`a.exists({})`, `a.all({})`, `iif({},..)` are criteria, not single-valued arguments, and may yield values; collection arguments of intersect/exclude may be empty"],
    },
    "C10": {
        "level_text": "Proof. Props/C10.v proves for every collection (any length), every per-item criterion value and every integer n: where is the order-preserving filter (multi-item criterion = error), exists(p) = where(p).exists(), all(p) is the conjunction, empty() = (count() = 0), first = [0] = take(1), tail = skip(1), last = skip(count-1), take(n) ++ skip(n) = c, distinct is duplicate-free and covers c, isDistinct iff count = distinct.count iff no duplicates, intersect is the duplicate-free set of common items, exclude equals the specification outside the one listed finding (and is refuted inside it), and that the whole model satisfies the property predicate (C10_holds_model). The model is hand-written from the Go code and tied by the correspondence run.",
        "level_note": "Trusted: Coq kernel, harness + hook (incl. the harness's independent computation of item equality classes and of per-item criterion values), check driver. Modelled rather than verified: Where/Select/All/Exists/Empty/Count/First/Last/Tail/Skip/Take/Distinct/IsDistinct/Exclude/Intersect and IndexExpression (hand-written Gallina twins of the Go bodies); Collection.Contains / system.Equal are abstracted to equality of classes.",
        "explanation": "Tie B only: programs over collections with duplicates, mixed types, shared and equal-but-distinct nodes; results compared class by class, with node identity and nil checks.",
        "assumptions": ["two items are equal iff their harness-computed classes coincide (numeric value across Integer/Decimal, string value across System and FHIR strings, deterministic serialisation for complex elements)"],
    },
    "C14": {
        "level_text": "Proof. Strings are lists of code points of any length. Props/C14.v proves: length counts characters, toChars has length() items and concatenates back to s, substring equals the list reference (out-of-range start = empty, start+length beyond the end clipped), s.substring(0,k) & s.substring(k) = s for every k >= 0, indexOf >= 0 implies the suffix at that position starts with the pattern, contains iff indexOf >= 0, startsWith/endsWith are prefix/suffix tests, and the whole model satisfies the property predicate (C14_holds_model). The model is hand-written after the character-based fix and tied by the correspondence run; every returned string is additionally checked to be valid UTF-8.",
        "level_note": "Trusted: Coq kernel, harness + hook, check driver. Modelled rather than verified: Go strings.Index/HasPrefix/HasSuffix/Contains/ReplaceAll/Split and []rune conversion on valid UTF-8 (as list operations on code points); Unicode case mapping of upper/lower is modelled for ASCII only (any same-length answer is accepted for other code points).",
        "explanation": "Tie B only: string programs over a multi-byte alphabet with exhaustive small strings and start/length grids.",
        "assumptions": ["a negative substring length is unspecified by FHIRPath: the model mirrors the code (the tail), the property predicate accepts a string or empty there"],
    },
    "C05": {
        "level_text": "Proof. Props/C05.v proves that the model of `= != < <= > >=` (Normalize promotion, the per-type TryEqual/Less, pairwise Collection.TryEqual) equals the reference comparison for operand collections of any length and content outside the one listed finding (number vs Quantity), and proves on the reference, for all values: = is symmetric, != is its negation or both are empty, < and > are converses, <= is not-> and >= is not-<, at most one of <,=,> holds, < is transitive across all kinds (mixed Integer/Decimal scales, mixed Date/DateTime precisions), an empty operand gives empty, and collection equality holds iff every corresponding pair is equal. The model is hand-written and tied by the correspondence run over all ordered pairs of the value pool.",
        "level_note": "Trusted: Coq kernel, harness + hook (incl. its independent computation of UTC-normalised temporal components with Go's time package), check driver. Modelled rather than verified: system.Normalize/TryEqual (reflection dispatch), Date/DateTime/Time/Quantity TryEqual and Less, Collection.TryEqual; time.Equal/Before on equal-layout values are modelled as lexicographic comparison of all components; shopspring Decimal comparison as exact scaled integers.",
        "explanation": "Tie B only: every ordered pair of a pool covering every System type, every temporal precision x offset form, Decimal scale variants, Quantities, FHIR primitives and complex elements; collections equal / differing at each position.",
        "assumptions": ["a bare number compared with a Quantity is read, per FHIRPath's implicit conversion, as a Quantity of unit '1' (the code's different answer is the listed finding KF-C05-1)"],
    },
    "C09": {
        "level_text": "Proof, with the Go time library modelled. Base/Cal.v proves both calendar round trips for EVERY day number and EVERY valid civil date (era periodicity + one era reflected, no axioms). On the reference computation Props/C09.v proves: type, precision and offset never change; years and months clamp to the month end; a week is 7 days; Time wraps within the day; day arithmetic is monotone in the amount; (x + n days) - n days = x for every valid date and integer n; (x + k months) - k months = x whenever no clamping occurs; unsupported / non-temporal units and calendar units on a Time are errors; quantities add and subtract only within one unit; and the model of the code IS the reference outside the two listed finding classes. The model is hand-written (after the fix: commits) and tied by the correspondence run over the precision x offset x unit x amount grid.",
        "level_note": "Trusted: Coq kernel, harness + hook (values are read back from their printed form), check driver. Modelled rather than verified: Go time.AddDate followed by the addMonth/addYear day correction (as clamping), time.Add at a fixed offset (as arithmetic on day number and millisecond of day), the Format/Parse truncation, shopspring IntPart/Round/Shift. The process time zone is UTC in this check (zone dependence is C04's subject). Results outside the years 0001..9999 are outside the domain.",
        "explanation": "Tie B only: `x + q` / `x - q` programs over month ends, leap days, year edges x every precision x offsets x every calendar keyword (singular and plural) and other units x boundary amounts.",
        "assumptions": ["1 year = 365 days and 1 month = 30 days when converting finer units to a year- or month-precision value, fractions dropped toward zero, as the property states"],
    },
}
