import argparse, json, os, re, shutil, subprocess, sys, time, glob, hashlib
from concurrent.futures import ThreadPoolExecutor

VERIF = os.path.dirname(os.path.dirname(os.path.abspath(__file__)))
COQ = os.path.join(VERIF, "coq")
GOENV = {"GOFLAGS": "-mod=mod", "GOPROXY": "off", "GOSUMDB": "off", "GOTOOLCHAIN": "local",
         "CGO_ENABLED": "0"}

import props as P


def log(*a):
    print(*a, file=sys.stderr, flush=True)


def run(cmd, cwd=None, timeout=1200, env=None, stdin=None):
    e = dict(os.environ)
    e.update(GOENV)
    if env:
        e.update(env)
    try:
        p = subprocess.run(cmd, cwd=cwd, env=e, stdout=subprocess.PIPE, stderr=subprocess.STDOUT,
                           timeout=timeout, text=True, errors="replace", input=stdin)
        return p.returncode, p.stdout
    except subprocess.TimeoutExpired as ex:
        out = ex.stdout if isinstance(ex.stdout, str) else (ex.stdout or b"").decode("utf8", "replace")
        return 124, out + "\n[timeout after %ss]" % timeout


class Infra(Exception):
    pass


# --------------------------------------------------------------------------------------
def ensure_coq_built():
    """Full .vo build of the development; no-op when up to date."""
    if not os.path.exists(os.path.join(COQ, "Makefile")):
        rc, out = run(["coq_makefile", "-f", "_CoqProject", "-o", "Makefile"], cwd=COQ)
        if rc != 0:
            raise Infra("coq_makefile failed:\n" + out)
    rc, out = run(["make", "-j16"], cwd=COQ, timeout=3000)
    return rc, out


def ensure_go2v():
    binp = os.path.join(VERIF, "bin", "go2v")
    src = os.path.join(VERIF, "go2v", "main.go")
    if os.path.exists(binp) and os.path.getmtime(binp) >= os.path.getmtime(src):
        return binp
    os.makedirs(os.path.dirname(binp), exist_ok=True)
    rc, out = run(["go", "build", "-o", binp, "."], cwd=os.path.join(VERIF, "go2v"))
    if rc != 0:
        raise Infra("building go2v failed:\n" + out)
    return binp


def build_harness(repo, work, race=False):
    """Rebuild the harness against the working tree of `repo` (hooks on; with the race detector for C04)."""
    hdir = os.path.join(VERIF, "harness")
    mod = open(os.path.join(hdir, "go.mod")).read()
    mod = re.sub(r"replace github.com/verily-src/fhirpath-go => .*", "replace github.com/verily-src/fhirpath-go => " + repo, mod)
    modfile = os.path.join(work, "go.mod")
    open(modfile, "w").write(mod)
    shutil.copy(os.path.join(hdir, "go.sum"), os.path.join(work, "go.sum"))
    binp = os.path.join(work, "fpharness")
    cmd = ["go", "build", "-tags", "verif", "-modfile", modfile, "-o", binp]
    if race:
        cmd.insert(2, "-race")
    rc, out = run(cmd + ["."], cwd=hdir, timeout=1500, env={"CGO_ENABLED": "1"} if race else None)
    if rc != 0 and race:
        # no C toolchain for the race detector: fall back to a plain build (the harness reports race_detector=false)
        rc, out = run([c for c in cmd if c != "-race"] + ["."], cwd=hdir, timeout=1500)
    if rc != 0:
        raise Infra("building the harness against %s failed:\n%s" % (repo, out))
    return binp


def coqc(work, vfile, timeout=900):
    return run(["coqc", "-Q", COQ, "FPV", "-Q", work, "RUN", vfile], cwd=work, timeout=timeout)


def theorem_names(path):
    names = []
    for line in open(path):
        m = re.match(r"\s*(Theorem|Lemma|Example|Corollary)\s+([A-Za-z0-9_']+)", line)
        if m:
            names.append(m.group(2))
    return names


def enclosing_theorem(path, lineno):
    name = None
    for i, line in enumerate(open(path), 1):
        m = re.match(r"\s*(Theorem|Lemma|Example|Corollary|Definition)\s+([A-Za-z0-9_']+)", line)
        if m:
            if i > lineno:
                break
            name = m.group(2)
    return name


def parse_print(out):
    """Parse the four `Print R_*` results of a cases shard."""
    res = {}
    chunks = re.split(r"(?m)^(R_disagree|R_fail_unlisted|R_fail_listed|R_listed_ok) =", out)
    # chunks: [pre, name, body, name, body...]
    for i in range(1, len(chunks) - 1, 2):
        name, body = chunks[i], chunks[i + 1]
        body = body.split("\n     : ")[0]
        nums = [int(x) for x in re.findall(r"(\d+)%N", body)]
        if name in ("R_disagree", "R_fail_unlisted"):
            res[name] = nums
        else:
            res[name] = list(zip(nums[0::2], nums[1::2]))
    return res


def load_descs(tsv):
    d = {}
    for line in open(tsv, encoding="utf8", errors="replace"):
        parts = line.rstrip("\n").split("\t")
        if len(parts) >= 2:
            d[int(parts[0])] = {"desc": parts[1], "coq": parts[2] if len(parts) > 2 else ""}
    return d


def assumptions_from_log(out):
    found = []
    for m in re.finditer(r"(?s)(Closed under the global context|Axioms:\n(?:.+\n)+)", out):
        s = m.group(1).strip()
        if s not in found:
            found.append(s)
    return found


# --------------------------------------------------------------------------------------
def main(argv):
    ap = argparse.ArgumentParser()
    ap.add_argument("prop")
    ap.add_argument("--tier", default=os.environ.get("VERIF_TIER", "quick"))
    ap.add_argument("--seed", default=os.environ.get("VERIF_SEED", "1"))
    ap.add_argument("--replay", default=None)
    ap.add_argument("--keep", action="store_true")
    args = ap.parse_args(argv)
    prop = args.prop
    if prop not in P.PROPS:
        log("unknown property", prop)
        return 2
    cfg = P.PROPS[prop]
    tier = args.tier if args.tier in ("quick", "thorough") else "quick"
    try:
        seed = int(args.seed)
    except ValueError:
        seed = int(hashlib.sha256(args.seed.encode()).hexdigest()[:8], 16)
    replay_in = None
    if args.replay:
        replay_in = json.load(open(args.replay))
        seed = int(replay_in.get("seed", seed))
        tier = replay_in.get("tier", tier)
    repo = os.path.abspath(os.environ.get("VERIF_REPO", "/repo"))
    t0 = time.time()
    work = os.path.join(VERIF, ".work", "%s-%d" % (prop, os.getpid()))
    shutil.rmtree(work, ignore_errors=True)
    os.makedirs(work)
    try:
        return check(prop, cfg, tier, seed, repo, work, t0, replay_in)
    except Infra as ex:
        log("INFRASTRUCTURE FAILURE:", ex)
        return 2
    finally:
        if not args.keep:
            shutil.rmtree(work, ignore_errors=True)


def check(prop, cfg, tier, seed, repo, work, t0, replay_in):
    broken = []        # list of dicts describing broken obligations / correspondences
    notes = []
    assumptions = []
    obligations = 0
    discharged = 0

    # ---- 1. the Coq development ------------------------------------------------------
    rc, out = ensure_coq_built()
    props_v = os.path.join(COQ, "Props", prop + ".v")
    prop_theorems = theorem_names(props_v)
    obligations += len(prop_theorems)
    if rc != 0:
        m = re.search(r'File "([^"]+)", line (\d+)', out)
        where = "%s:%s" % (m.group(1), m.group(2)) if m else "?"
        broken.append({"kind": "unchecked-obligation", "theorem": "make of /verif/coq (%s)" % where, "log": out[-2000:]})
    else:
        vo = os.path.join(COQ, "Props", prop + ".vo")
        if os.path.exists(vo) and os.path.getmtime(vo) >= os.path.getmtime(props_v):
            discharged += len(prop_theorems)
        # Print Assumptions output of the property theorems (re-run coqc on the Props file: cheap)
        pdir = os.path.join(work, "props")
        os.makedirs(pdir, exist_ok=True)
        shutil.copy(props_v, os.path.join(pdir, prop + ".v"))
        rc2, out2 = run(["coqc", "-Q", COQ, "FPV", prop + ".v"], cwd=pdir, timeout=900)
        assumptions += assumptions_from_log(out2)
        if rc2 != 0:
            broken.append({"kind": "unchecked-obligation", "theorem": "Props/%s.v" % prop, "log": out2[-2000:]})
            discharged -= len(prop_theorems)

    # ---- 2. Tie A: regenerate translated fragments, re-check obligations ---------------
    gen_info = []
    if cfg.get("fragments"):
        go2v = ensure_go2v()
        for frag in cfg["fragments"]:
            gv = os.path.join(work, "Gen_%s.v" % frag)
            rc, out = run([go2v, frag, repo], timeout=120)
            open(gv, "w").write(out)
            if rc != 0:
                broken.append({"kind": "unchecked-obligation", "theorem": "go2v fragment %s" % frag, "log": out[-2000:]})
                continue
            rc, out = coqc(work, gv)
            base = os.path.join(COQ, "GenBaseline", "Gen_%s.v" % frag)
            same = os.path.exists(base) and open(base).read().replace(repo, "/repo") == open(gv).read().replace(repo, "/repo")
            gen_info.append({"fragment": frag, "identical_to_baseline": same})
            if rc != 0:
                broken.append({"kind": "unchecked-obligation", "theorem": "Gen_%s.v does not compile (fragment no longer fits its shape contract)" % frag, "log": out[-2000:]})
        for ob in cfg.get("oblig", []):
            src = os.path.join(COQ, "Oblig", ob)
            dst = os.path.join(work, ob)
            shutil.copy(src, dst)
            names = theorem_names(src)
            obligations += len(names)
            rc, out = coqc(work, dst)
            assumptions += assumptions_from_log(out)
            if rc == 0:
                discharged += len(names)
            else:
                m = re.search(r'line (\d+)', out)
                thm = enclosing_theorem(src, int(m.group(1))) if m else None
                broken.append({"kind": "unchecked-obligation", "theorem": "%s:%s" % (ob, thm or "?"), "log": out[-2000:]})

    # ---- 3. Tie B: correspondence --------------------------------------------------------
    harness = build_harness(repo, work, race=bool(cfg.get("race")))
    cdir = os.path.join(work, "cases")
    env = {"VERIF_REPO": repo}
    rc, out = run([harness, prop, "-seed", str(seed), "-tier", tier, "-out", cdir], cwd=work,
                  timeout=cfg.get("harness_timeout", {}).get(tier, 1500), env=env)
    if rc != 0:
        raise Infra("harness failed (rc=%s):\n%s" % (rc, out[-4000:]))
    meta = json.load(open(os.path.join(cdir, "meta.json")))
    shards = sorted(glob.glob(os.path.join(cdir, "cases_*.v")))

    def do_shard(v):
        rc, out = coqc(work, v, timeout=300)
        return v, rc, out
    results = []
    with ThreadPoolExecutor(max_workers=16) as ex:
        for v, rc, out in ex.map(do_shard, shards):
            results.append((v, rc, out))
    disagree, fail_unlisted, fail_listed, listed_ok = [], [], [], []
    descs = {}
    for v, rc, out in results:
        descs.update(load_descs(v[:-2] + ".tsv"))
        if rc != 0:
            broken.append({"kind": "unchecked-obligation", "theorem": "evaluation of %s" % os.path.basename(v), "log": out[-3000:]})
            continue
        r = parse_print(out)
        if len(r) != 4:
            raise Infra("cannot parse coqc output for %s:\n%s" % (v, out[-2000:]))
        disagree += r["R_disagree"]
        fail_unlisted += r["R_fail_unlisted"]
        fail_listed += r["R_fail_listed"]
        listed_ok += r["R_listed_ok"]

    # ---- 4. verdict ------------------------------------------------------------------------
    kfile = json.load(open(os.path.join(VERIF, "known_findings.json")))
    listed = {(f["property"], int(f["kf_class"])): f for f in kfile.get("findings", [])}
    violations = []       # (replay dict)
    kf_seen = {}
    for cid, k in fail_listed:
        f = listed.get((prop, k))
        if f is None:
            fail_unlisted.append(cid)   # a class the committed file does not list: a violation
        else:
            kf_seen.setdefault(k, []).append(cid)
    for cid, k in listed_ok:
        pass
    disagree_set = set(disagree)
    fail_set = set(fail_unlisted)
    os.makedirs(os.path.join(VERIF, "replays"), exist_ok=True)
    for old in glob.glob(os.path.join(VERIF, "replays", "%s-%s-%s-*.json" % (prop, tier, seed))):
        if replay_in is None:
            os.remove(old)

    def write_replay(tag, body):
        path = os.path.join(VERIF, "replays", "%s-%s-%s-%s.json" % (prop, tier, seed, tag))
        body = dict(body)
        body.update({"property": prop, "seed": seed, "tier": tier, "repo": repo})
        json.dump(body, open(path, "w"), indent=1)
        return path

    lines = []
    # (a) property predicate fails on an implementation outcome, not a listed finding: witness.
    witnesses = sorted(fail_set)
    if witnesses:
        ex = [dict(id=c, **descs.get(c, {})) for c in witnesses[:25]]
        path = write_replay("counterexample", {
            "kind": "counterexample", "cases": ex, "count": len(witnesses),
            "model_disagrees_too": [c for c in witnesses if c in disagree_set][:25],
            "broken_obligations": [b["theorem"] for b in broken]})
        lines.append("VIOLATION property=%s replay=%s" % (prop, path))
    else:
        # (b) something no longer checks but no failing input was found
        only_disagree = sorted(disagree_set)
        if broken or only_disagree:
            body = {"kind": "unchecked-obligation",
                    "theorems": [b["theorem"] for b in broken],
                    "logs": [b.get("log", "") for b in broken][:5],
                    "correspondence": "implementation and model differ on %d case(s) of the %s stream although the property predicate still holds there" % (len(only_disagree), prop) if only_disagree else None,
                    "cases": [dict(id=c, **descs.get(c, {})) for c in only_disagree[:25]]}
            path = write_replay("unchecked", body)
            lines.append("VIOLATION property=%s replay=%s no-failing-input-found" % (prop, path))
    for k, ids in sorted(kf_seen.items()):
        f = listed[(prop, k)]
        print("KNOWN-FINDING: property=%s %s [%s; %d case(s) this run, e.g. %s]" % (
            prop, f["what"], f.get("id", "kf%d" % k), len(ids), descs.get(ids[0], {}).get("desc", "?")))
    for f in kfile.get("findings", []):
        if f["property"] == prop and int(f["kf_class"]) not in kf_seen:
            notes.append("listed finding %s not exercised or no longer reproduces in this run" % f.get("id"))
    for l in lines:
        print(l)

    # ---- 5. evidence -------------------------------------------------------------------------
    wall = time.time() - t0
    ev = {
        "property_id": prop, "tier": tier, "seed": seed, "level": "proof",
        "coverage": {
            "obligations": obligations, "discharged": max(discharged, 0),
            "checker_cmd": "make -C /verif/coq -j16 (coqc 8.16.1, full .vo build) ; coqc Oblig/%s_gen.v over go2v output ; coqc cases_*.v (vm_compute)" % prop,
            "trusted_base": P.TRUSTED_BASE + cfg.get("trusted_extra", []),
            "theorems": prop_theorems,
            "print_assumptions": assumptions,
            "translated_fragments": gen_info,
            "evaluations": meta["evaluations"],
            "distinct_nontrivial": meta["distinct_nontrivial"],
            "rule": meta["rule"],
            "samples": meta["samples"],
            "exhaustive": bool(meta.get("exhaustive")),
            "distribution": meta.get("distribution"),
            "correspondence": {"cases": meta["evaluations"], "disagreements": len(disagree_set),
                               "property_failures_unlisted": len(fail_set),
                               "known_finding_cases": {str(k): len(v) for k, v in kf_seen.items()},
                               "listed_class_cases_where_property_holds": len(listed_ok)},
            "explanation": cfg.get("explanation", ""),
            "notes": notes,
            "extra": {k: v for k, v in meta.items() if k not in ("samples", "distribution", "rule")},
        },
        "assumptions": cfg.get("assumptions", []),
        "wall_s": round(wall, 2),
        "violations": len(lines),
    }
    os.makedirs(os.path.join(VERIF, "evidence"), exist_ok=True)
    json.dump(ev, open(os.path.join(VERIF, "evidence", prop + ".json"), "w"), indent=1)
    log("%s %s seed=%s: %d cases, %d disagreements, %d unlisted failures, %d known-finding classes, obligations %d/%d, %.1fs" % (
        prop, tier, seed, meta["evaluations"], len(disagree_set), len(fail_set), len(kf_seen), discharged, obligations, wall))
    if replay_in is not None:
        want = {c.get("desc") for c in replay_in.get("cases", [])}
        got = {descs.get(c, {}).get("desc") for c in list(fail_set) + list(disagree_set)}
        log("replay: %d of %d recorded cases still fail" % (len(want & got), len(want)))
    return 1 if lines else 0
