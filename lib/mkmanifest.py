#!/usr/bin/env python3
"""Regenerates /verif/MANIFEST.json from lib/props.py (claimed checks) and the property list."""
import json, os, sys, subprocess
sys.path.insert(0, os.path.dirname(os.path.abspath(__file__)))
import props as P
VERIF = os.path.dirname(os.path.dirname(os.path.abspath(__file__)))
ids = [json.loads(l)["id"] for l in open(os.path.join(VERIF, "properties.jsonl"))]
try:
    hook_commits = subprocess.run(["git", "-C", "/repo", "log", "--format=%H %s"], stdout=subprocess.PIPE, text=True).stdout.splitlines()
    hook_commits = [l.split()[0] for l in hook_commits if "verif hook" in l]
except Exception:
    hook_commits = []
checks = []
for pid in ids:
    c = P.PROPS.get(pid)
    if not c:
        continue
    checks.append({
        "property_id": pid,
        "quick_cmd": "./check %s --tier quick" % pid,
        "thorough_cmd": "./check %s --tier thorough" % pid,
        "evidence_file": "/verif/evidence/%s.json" % pid,
        "replay_cmd_template": "./check %s --replay {path}" % pid,
        "engine": "coq-model+correspondence",
        "level_claimed": {"category": "proof", "text": c["level_text"], "design_ref": c.get("design_ref", "DESIGN.md Part I section I.2 (as built) and Part II section 5, " + pid)},
        "level_note": c["level_note"],
        "technique": c.get("technique", "machine-checked proof in Coq 8.16.1 over an executable Gallina model; model tied to the code by go2v regeneration (Tie A) and by a checked correspondence run (Tie B)"),
    })
na = [{"property_id": pid, "reason": P.NOT_APPLICABLE.get(pid, "no check built for this property yet; nothing is claimed for it")} for pid in ids if pid not in P.PROPS]
m = {
    "version": 1,
    "setup_cmd": "./setup.sh",
    "hooks": {
        "guard": "verif",
        "enable": "go build -tags verif (package fhirpath/verifhook; every file carries //go:build verif)",
        "baseline_off_cmd": "cd /repo && go test -mod=mod -json -vet=off -count=1 -timeout 25m ./...",
        "source_commits": hook_commits,
        "add_only": True,
    },
    "engines": [
        {"name": "coq-model+correspondence", "path": "/verif/coq, /verif/go2v, /verif/harness, /verif/check",
         "serves_properties": [c["property_id"] for c in checks],
         "kind_free_text": "Coq 8.16.1 development (model, reference, theorems); go2v translator regenerating model fragments from the Go source on every run; Go harness + hook package running generated cases on the implementation; coqc evaluating the model on the same cases (vm_compute)"},
    ],
    "checks": checks,
    "not_applicable": na,
    "notes": "Family: machine-checked proof in Rocq/Coq. See DESIGN.md (sections 1, 7, 8) for the argument, the trusted base and the limits.",
}
json.dump(m, open(os.path.join(VERIF, "MANIFEST.json"), "w"), indent=1)
print("MANIFEST.json: %d checks, %d not claimed" % (len(checks), len(na)))
