#!/usr/bin/env python3
"""seedtool.py validate <srcdir> <name>   -- confirm a seeded change in a scratch worktree and keep it under /verif/seeded/<name>
   seedtool.py detect <name> [check-id ...] -- apply /verif/seeded/<name>/patch.diff to /repo, run the checks, undo
"""
import json, os, shutil, subprocess, sys, time
VERIF = "/verif"
ENV = dict(os.environ, GOFLAGS="-mod=mod", GOPROXY="off", GOSUMDB="off", GOTOOLCHAIN="local")

def sh(cmd, cwd=None, timeout=1800):
    p = subprocess.run(cmd, cwd=cwd, shell=True, env=ENV, stdout=subprocess.PIPE, stderr=subprocess.STDOUT, text=True, errors="replace", timeout=timeout)
    return p.returncode, p.stdout

def validate(src, name):
    meta = json.load(open(os.path.join(src, "meta.json")))
    wt = "/tmp/val-" + name
    sh("git -C /repo worktree remove --force %s" % wt)
    rc, out = sh("git -C /repo worktree add -q --detach %s HEAD" % wt)
    assert rc == 0, out
    try:
        demo_dir = meta["demo_dir"].strip("/")
        demo_dst = os.path.join(wt, demo_dir, "zz_seed_demo_test.go")
        res = {}
        shutil.copy(os.path.join(src, "demo_test.go"), demo_dst)
        rc, out = sh(meta["demo_run"], cwd=wt)
        res["demo_on_unchanged"] = "pass" if rc == 0 else "FAIL"
        res["demo_on_unchanged_tail"] = out[-600:]
        os.remove(demo_dst)
        rc, out = sh("git apply --3way %s" % os.path.join(src, "patch.diff"), cwd=wt)
        res["applies"] = rc == 0
        if rc != 0:
            res["apply_log"] = out[-800:]
        else:
            rc, out = sh("go build ./... && go test -vet=off -count=1 ./...", cwd=wt)
            res["suite_with_change"] = "pass" if rc == 0 else "FAIL"
            if rc != 0:
                res["suite_tail"] = out[-1500:]
            shutil.copy(os.path.join(src, "demo_test.go"), demo_dst)
            rc, out = sh(meta["demo_run"], cwd=wt)
            res["demo_with_change"] = "fail (as required)" if rc != 0 else "PASSES (seed not manifest)"
            res["demo_with_change_tail"] = out[-600:]
            os.remove(demo_dst)
            # re-diff against current HEAD so that the kept patch applies to /repo as it is now
            rc, diff = sh("git diff HEAD", cwd=wt)
        ok = res.get("demo_on_unchanged") == "pass" and res.get("applies") and res.get("suite_with_change") == "pass" and res.get("demo_with_change", "").startswith("fail")
        res["confirmed"] = bool(ok)
        if ok:
            dst = os.path.join(VERIF, "seeded", name)
            os.makedirs(dst, exist_ok=True)
            open(os.path.join(dst, "patch.diff"), "w").write(diff)
            shutil.copy(os.path.join(src, "demo_test.go"), os.path.join(dst, "demo_test.go"))
            meta["validation"] = {k: v for k, v in res.items() if not k.endswith("_tail")}
            meta["validated_against_repo_head"] = sh("git -C /repo rev-parse HEAD")[1].strip()
            meta["what_i_ran"] = "scratch worktree of /repo HEAD: demo passes unchanged; git apply --3way patch; go build ./... && go test -vet=off -count=1 ./... pass; demo fails with the change"
            json.dump(meta, open(os.path.join(dst, "meta.json"), "w"), indent=1)
        print(json.dumps({k: v for k, v in res.items() if ok is False or not k.endswith("_tail")}, indent=1))
        return ok
    finally:
        sh("git -C /repo worktree remove --force %s" % wt)

def detect(name, checks):
    dst = os.path.join(VERIF, "seeded", name)
    meta = json.load(open(os.path.join(dst, "meta.json")))
    if not checks:
        checks = [meta["property"]]
    rc, out = sh("git -C /repo status --porcelain --untracked-files=no")
    assert out.strip() == "", "repo not clean: " + out
    rc, out = sh("git -C /repo apply %s" % os.path.join(dst, "patch.diff"))
    assert rc == 0, out
    results = {}
    try:
        for c in checks:
            t = time.time()
            rc, out = sh("./check %s --tier quick" % c, cwd=VERIF, timeout=3000)
            lines = [l for l in out.splitlines() if l.startswith("VIOLATION") or l.startswith("KNOWN-FINDING") or "INFRASTRUCTURE" in l]
            results[c] = {"exit": rc, "lines": lines, "wall_s": round(time.time() - t, 1)}
            print(c, rc, lines, flush=True)
    finally:
        sh("git -C /repo checkout -- .")
    meta.setdefault("detection", {}).update(results)
    json.dump(meta, open(os.path.join(dst, "meta.json"), "w"), indent=1)

if __name__ == "__main__":
    if sys.argv[1] == "validate":
        sys.exit(0 if validate(sys.argv[2], sys.argv[3]) else 1)
    elif sys.argv[1] == "detect":
        detect(sys.argv[2], sys.argv[3:])
