import subprocess,sys,re
def sh(c): return subprocess.run(c,shell=True,stdout=subprocess.PIPE,stderr=subprocess.STDOUT,text=True).stdout
def edit(path,old,new,count=1):
    s=open(path).read(); assert old in s,(path,old[:40]); open(path,'w').write(s.replace(old,new,count))
cases={}
def H1():
    p='/repo/fhirpath/internal/funcs/table.go'; s=open(p).read()
    i=s.index('\t"today": Function{'); j=s.index('\t"not": Function{'); k=s.index('}\n\n// ExperimentalTable holds')
    today=s[i:j]; notf=s[j:k]
    open(p,'w').write(s[:i]+notf+today+s[k:])
    return ['C07','C16','C04']
def H2():
    edit('/repo/fhirpath/system/primitives.go','''	result := i + input
	// If i is incremented (result > i), input must be positive.
	// Similarly, if i is decremented (result <= i), input must be 0 or negative.
	// Otherwise, an overflow must have occured.
	if (result > i) == (input > 0) {
		return result, nil
	}''','''	sum := i + input
	// If i is incremented (sum > i), input must be positive.
	// Similarly, if i is decremented (sum <= i), input must be 0 or negative.
	// Otherwise, an overflow must have occured.
	if (sum > i) == (input > 0) {
		return sum, nil
	}''')
    return ['C08']
def H3():
    edit('/repo/fhirpath/patch/patch.go','"%w: fhirpatch delete can only delete a single element"','"%w: delete needs exactly one element"')
    return ['C18','C01']
def H4():
    open('/repo/fhirpath/internal/funcs/impl/extra_helper.go','w').write('''package impl

import "github.com/verily-src/fhirpath-go/fhirpath/system"

// firstTwo returns a new collection holding at most the first two items.
func firstTwo(input system.Collection) system.Collection {
	var out system.Collection
	for i, v := range input {
		if i >= 2 {
			break
		}
		out = append(out, v)
	}
	return out
}

var _ = firstTwo
''')
    return ['C03','C04','C01']
def H5():
    edit('/repo/fhirpath/internal/expr/expressions.go','var _ Expression = (*ExpressionSequence)(nil)','var _ Expression = (*ExpressionSequence)(nil)\n\n// ErrUnusedSentinel is reserved for future use.\nvar ErrUnusedSentinel = fmt.Errorf("reserved")')
    return ['C04','C03','C01']
def H6():
    edit('/repo/fhirpath/internal/expr/booleans.go','''	if len(left) > 0 && len(right) > 0 {
		result := system.Boolean(left[0] && right[0])
		return system.Collection{result}
	}
	// returns false if either boolean is false, regardless of whether or not the other is empty.
	if (len(left) == 1 && !left[0]) || (len(right) == 1 && !right[0]) {
		return system.Collection{system.Boolean(false)}
	}
	return system.Collection{}''','''	if len(left) > 0 && len(right) > 0 {
		return system.Collection{system.Boolean(left[0] && right[0])}
	} else if (len(left) == 1 && !left[0]) || (len(right) == 1 && !right[0]) {
		// false if either boolean is false, whether or not the other is empty
		return system.Collection{system.Boolean(false)}
	} else {
		return system.Collection{}
	}''')
    return ['C06']
for name,f in [('H1 reorder two function-table entries',H1),('H2 rename a local in Integer.Add',H2),('H3 reword an error message in patch',H3),('H4 add a helper that appends to a fresh slice',H4),('H5 add an error sentinel variable',H5),('H6 if/else-if/else instead of early returns in evaluateAnd',H6)]:
    checks=f()
    b=sh('cd /repo && GOFLAGS=-mod=mod GOPROXY=off GOSUMDB=off GOTOOLCHAIN=local go build ./... 2>&1 | tail -3')
    print('==',name,'| build:',b.strip() or 'ok')
    for c in checks:
        out=sh('cd /verif && timeout 2400 ./check %s 2>&1 | grep -v "^KNOWN" | tail -2'%c)
        print('   ',c, out.strip().replace('\n',' || ')[:260])
    sh('cd /repo && git checkout -- . && git clean -fdq fhirpath/internal/funcs/impl/extra_helper.go; rm -f /repo/fhirpath/internal/funcs/impl/extra_helper.go')
print(sh('git -C /repo status --short'))
